package main

// C18: read-committed behaviour of readers against the primary-file writer.
//
// Op `rc <c|u> <step>...` on one variable-length bucket RC/1Min/T (one int64 column `v`) of a real
// in-process instance (`c` = snappy on, `u` = DisableVariableCompression):
//   W:<rows>          a complete write request through frontend.DataService.Write
//   X<B|M|A>:<rows>   a DIRECTED write: the real executor.WriteBufferToFileIndirect is called on the
//                     bucket's year file through an interposing io.ReadWriteSeeker that runs a full
//                     query (real DataService.Query) Before the data write, in the Middle (after the
//                     data blob was written, before the index triple is written) or After the index
//                     write; prints that query's result.  No hook in /repo, no re-implementation of
//                     the writer: only the writer's file handle is wrapped.
//   Q                 a full query
// rows: `minute,sec,payloadhex(8 bytes)` joined by '+'; record time = 2020-03-02 10:00:00Z +
// minute*60 + sec.  All rows of an X step lie in one minute.
// Output per query: rows in returned order as `minute:payloadhex` joined by '+', `0` if none,
// or err:<class>.  Op `rcfixed` is the fixed-length counterpart (one pwrite per record).

import (
	"fmt"
	"os"
	"path/filepath"
	"strings"
	"time"

	"github.com/alpacahq/marketstore/v4/executor"
	"github.com/alpacahq/marketstore/v4/executor/wal"
	"github.com/alpacahq/marketstore/v4/frontend"
	mio "github.com/alpacahq/marketstore/v4/utils/io"
)

var rcBase = time.Date(2020, 3, 2, 10, 0, 0, 0, time.UTC).Unix()

type rcRow struct {
	minute, sec int64
	payload     []byte
}

func parseRcRows(s string) []rcRow {
	var out []rcRow
	for _, r := range strings.Split(s, "+") {
		f := strings.Split(r, ",")
		if len(f) != 3 {
			panic("bad-arg rc row " + r)
		}
		b, err := unhx(f[2])
		if err != nil || len(b) != 8 {
			panic("bad-arg rc payload " + f[2])
		}
		out = append(out, rcRow{atoi(f[0]), atoi(f[1]), b})
	}
	return out
}

const rcKey = "RC/1Min/T"

func (in *Inst) rcQuery(key string) string {
	req := frontend.QueryRequest{Destination: key}
	var resp frontend.MultiQueryResponse
	err := in.ds.Query(nil, &frontend.MultiQueryRequest{Requests: []frontend.QueryRequest{req}}, &resp)
	if err != nil {
		m := strings.ToLower(err.Error())
		switch {
		case strings.Contains(m, "snappy"), strings.Contains(m, "corrupt"):
			return "err:corrupt"
		case strings.Contains(m, "no files returned"), strings.Contains(m, "not in catalog"):
			return "err:nofiles"
		case strings.Contains(m, "eof"):
			return "err:eof"
		}
		return "err:other"
	}
	csm, err := resp.ToColumnSeriesMap()
	if err != nil {
		return "err:decode"
	}
	for _, cs := range *csm {
		if cs == nil || cs.Len() == 0 {
			return "0"
		}
		epoch := cs.GetEpoch()
		v := mio.CastToByteSlice(cs.GetColumn("v"))
		var parts []string
		for i := range epoch {
			parts = append(parts, fmt.Sprintf("%d:%s", (epoch[i]-rcBase)/60, hx(v[i*8:(i+1)*8])))
		}
		return strings.Join(parts, "+")
	}
	return "0"
}

func (in *Inst) rcWrite(key string, rows []rcRow, isVar bool) string {
	var rs []rowIn
	for _, r := range rows {
		rs = append(rs, rowIn{rcBase + r.minute*60 + r.sec, 0, r.payload})
	}
	ds := buildDataset(key, parseCols("v=int64"), rs, isVar)
	var resp frontend.MultiServerResponse
	in.ds.Write(nil, &frontend.MultiWriteRequest{Requests: []frontend.WriteRequest{{Data: ds, IsVariableLength: isVar}}}, &resp)
	if len(resp.Responses) == 0 {
		return "ok"
	}
	return errClass(resp.Responses[0].Error)
}

// interposer wraps the writer's file handle: after the n-th Write call it runs the hook.
type interposer struct {
	*os.File
	writes int
	at     int
	hook   func()
}

func (w *interposer) Write(b []byte) (int, error) {
	n, err := w.File.Write(b)
	w.writes++
	if w.writes == w.at {
		w.hook()
	}
	return n, err
}

func (w *interposer) WriteAt(b []byte, off int64) (int, error) {
	n, err := w.File.WriteAt(b, off)
	w.writes++
	if w.writes == w.at {
		w.hook()
	}
	return n, err
}

func (in *Inst) rcDirected(pos string, rows []rcRow) string {
	path := filepath.Join(in.root, rcKey, "2020.bin")
	fp, err := os.OpenFile(path, os.O_RDWR, 0o600)
	if err != nil {
		return "err:nofile"
	}
	defer fp.Close()
	t0 := time.Unix(rcBase+rows[0].minute*60, 0).UTC()
	index := mio.TimeToIndex(t0, time.Minute)
	offset := mio.IndexToOffset(index, 24)
	buf := append(le64(offset), le64(index)...)
	for _, r := range rows {
		if r.minute != rows[0].minute {
			panic("bad-arg rc X rows in different minutes")
		}
		t := time.Unix(rcBase+r.minute*60+r.sec, 0).UTC()
		ticks := mio.GetIntervalTicks32Bit(t, index, 1440)
		buf = append(buf, r.payload...)
		buf = append(buf, le64(int64(ticks))[:4]...)
	}
	res := ""
	hook := func() { res = in.rcQuery(rcKey) }
	w := &interposer{File: fp, hook: hook}
	switch pos {
	case "B":
		hook()
	case "M":
		w.at = 1
	case "A":
		w.at = 2
	}
	if err := executor.WriteBufferToFileIndirect(w, wal.OffsetIndexBuffer(buf), 12); err != nil {
		return "werr:" + errClass(err.Error())[4:]
	}
	return res
}

func rcOp(a []string) string {
	root := scratchDir("rc")
	defer os.RemoveAll(root)
	cfg := baseConfig(root)
	switch a[0] {
	case "c":
	case "u":
		cfg.DisableVariableCompression = true
	default:
		return "harness:bad-arg mode " + a[0]
	}
	in := startInst(root, cfg)
	defer func() { in.abandon() }()
	var out []string
	for _, step := range a[1:] {
		f := strings.SplitN(step, ":", 2)
		switch {
		case f[0] == "W":
			out = append(out, "W="+in.rcWrite(rcKey, parseRcRows(f[1]), true))
		case f[0] == "Q":
			out = append(out, "Q="+in.rcQuery(rcKey))
		case len(f[0]) == 2 && f[0][0] == 'X':
			out = append(out, f[0]+"="+in.rcDirected(f[0][1:], parseRcRows(f[1])))
		default:
			panic("bad-arg rc step " + step)
		}
	}
	return strings.Join(out, " ")
}

// ---- fixed-length bucket: one record = one WriteAt of index+payload --------------------------

const rcfKey = "RF/1Min/T"

// rcfDirected writes ONE record with the real executor.WriteBufferToFile through the interposer
// (its single WriteAt is the only file operation: there is no middle state to observe).
func (in *Inst) rcfDirected(pos string, rows []rcRow) string {
	path := filepath.Join(in.root, rcfKey, "2020.bin")
	fp, err := os.OpenFile(path, os.O_RDWR, 0o600)
	if err != nil {
		return "err:nofile"
	}
	defer fp.Close()
	res := ""
	hook := func() { res = in.rcQuery(rcfKey) }
	if pos == "B" {
		hook()
	}
	total := 0
	for _, r := range rows {
		t := time.Unix(rcBase+r.minute*60+r.sec, 0).UTC()
		index := mio.TimeToIndex(t, time.Minute)
		offset := mio.IndexToOffset(index, 16)
		buf := append(le64(offset), le64(index)...)
		buf = append(buf, r.payload...)
		w := &interposer{File: fp}
		if err := executor.WriteBufferToFile(w, wal.OffsetIndexBuffer(buf)); err != nil {
			return "werr"
		}
		total += w.writes
	}
	if pos == "A" {
		hook()
	}
	return fmt.Sprintf("%s/w%d", res, total)
}

func rcfOp(a []string) string {
	root := scratchDir("rcf")
	defer os.RemoveAll(root)
	in := startInst(root, nil)
	defer func() { in.abandon() }()
	var out []string
	for _, step := range a {
		f := strings.SplitN(step, ":", 2)
		switch {
		case f[0] == "W":
			out = append(out, "W="+in.rcWrite(rcfKey, parseRcRows(f[1]), false))
		case f[0] == "Q":
			out = append(out, "Q="+in.rcQuery(rcfKey))
		case f[0] == "XB" || f[0] == "XA":
			out = append(out, f[0]+"="+in.rcfDirected(f[0][1:], parseRcRows(f[1])))
		default:
			panic("bad-arg rcf step " + step)
		}
	}
	return strings.Join(out, " ")
}

// ---- race-detector witness scenarios (NOT part of any generator) ------------------------------
//
// Run by go/harness/race_witness.sh with a harness built with `-race`; they only exercise the
// accesses that Mkts.Props.C18.lockset_* flags, so that the race detector can print real traces.
// `raceflush` may die with "fatal error: concurrent map writes" in a normal build.

func raceBgOp(a []string) string {
	root := scratchDir("racebg")
	defer os.RemoveAll(root)
	cfg := baseConfig(root)
	cfg.BackgroundSync = true // SyncWAL goroutine: writes haveWALWriter, reads *shutdownPending
	in := startInst(root, cfg)
	for i := 0; i < 3; i++ {
		in.rcWrite(rcfKey, []rcRow{{int64(i), 1, []byte{1, 2, 3, 4, 5, 6, 7, 8}}}, false) // RequestFlush reads haveWALWriter
	}
	in.wf.Shutdown() // writes *shutdownPending
	in.abandon()
	return "done"
}

func raceFlushOp(a []string) string {
	root := scratchDir("raceflush")
	defer os.RemoveAll(root)
	in := startInst(root, nil) // no WAL writer goroutine: every request flushes in its own goroutine
	defer in.abandon()
	done := make(chan struct{}, 2)
	for w := 0; w < 2; w++ {
		go func(w int) {
			defer func() { recover(); done <- struct{}{} }()
			key := fmt.Sprintf("R%d/1Min/T", w)
			for i := 0; i < 30; i++ {
				in.rcWrite(key, []rcRow{{int64(i), 1, []byte{1, 2, 3, 4, 5, 6, 7, 8}}}, false) // FlushToWAL -> tpd.m
			}
		}(w)
	}
	<-done
	<-done
	return "done"
}

// ---- generator ------------------------------------------------------------------------------

func (g *Gen) rcRows(minutes []int64, n int) string {
	var parts []string
	for i := 0; i < n; i++ {
		m := minutes[g.Intn(len(minutes))]
		parts = append(parts, fmt.Sprintf("%d,%d,%s", m, 1+g.Intn(58), hx(g.Bytes(8))))
	}
	return strings.Join(parts, "+")
}

func init() {
	ops["rc"] = rcOp
	slowOps["rc"] = true
	ops["rcf"] = rcfOp
	slowOps["rcf"] = true
	ops["racebg"] = raceBgOp
	ops["raceflush"] = raceFlushOp
	gens["C18"] = func(g *Gen) {
		n := g.N(150, 3000)
		for i := 0; i < n; i++ {
			if g.Intn(6) == 0 { // fixed-length bucket
				steps := []string{"rcf"}
				tags := []string{"bucket:fixed"}
				mins := []int64{3, 5, 7, 2000}
				for k, nw := 0, 1+g.Intn(3); k < nw; k++ {
					steps = append(steps, "W:"+g.rcRows(mins, 1+g.Intn(4)))
				}
				for k, nx := 0, 1+g.Intn(3); k < nx; k++ {
					pos := []string{"B", "A"}[g.Intn(2)]
					steps = append(steps, "X"+pos+":"+g.rcRows(mins, 1+g.Intn(2)))
					tags = append(tags, "pos:"+pos)
				}
				steps = append(steps, "Q")
				g.Emit(strings.Join(steps, " "), tags...)
				continue
			}
			mode := []string{"c", "u"}[g.Intn(2)]
			steps := []string{"rc", mode}
			tags := []string{"bucket:variable", "mode:" + mode}
			mins := []int64{3, 5, 7}
			if g.Intn(3) == 0 {
				mins = []int64{5}
			}
			last := int64(-1)
			if g.Intn(12) != 0 {
				for k, nw := 0, 1+g.Intn(4); k < nw; k++ {
					m := mins[g.Intn(len(mins))]
					if g.Intn(3) == 0 { // one request touching several intervals
						steps = append(steps, "W:"+g.rcRows(mins, 1+g.Intn(4)))
						last = -1
						tags = append(tags, "w:multi")
					} else {
						steps = append(steps, "W:"+g.rcRows([]int64{m}, 1+g.Intn(4)))
						last = m
					}
				}
			} else {
				tags = append(tags, "no_file")
			}
			for k, nx := 0, 1+g.Intn(2); k < nx; k++ {
				pos := []string{"B", "M", "M", "M", "A"}[g.Intn(5)]
				m := mins[g.Intn(len(mins))]
				if last >= 0 && g.Intn(2) == 0 {
					m = last // the blob written last lies at the end of the file: continuation write
					tags = append(tags, "x:last_slot")
				}
				steps = append(steps, "X"+pos+":"+g.rcRows([]int64{m}, 1+g.Intn(3)))
				tags = append(tags, "pos:"+pos)
				last = m
			}
			steps = append(steps, "Q")
			g.Emit(strings.Join(steps, " "), tags...)
		}
	}
}
