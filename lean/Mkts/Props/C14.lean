import Mkts.Lemmas.Coerce
import Mkts.Lemmas.Coerce2
import Mkts.Model.ExceptDec
/-!
# C14 — writes are validated against the bucket schema

`checkAndCoerce db cols` is the schema test + coercion of `WriteCSM` for one bucket (`db` = bucket
columns, `cols` = request columns, Epoch implicit on both sides); `request` is a whole write request
over its buckets in iteration order with the write channel (`Chan.pending` = rows queued by earlier
failed requests); `specRequest` is the property's demand (all-or-nothing, columns matched by name,
values converted by `convert`).
-/
namespace Mkts.Props.C14
open Mkts.Coerce Mkts.Bytes

/-- a different number of columns is rejected -/
theorem C14_length_reject (db : List DS) (cols : List Col) (h : db.length ≠ cols.length) :
    checkAndCoerce db cols = .error .mismatch := by
  unfold checkAndCoerce
  simp [h]

/-- name mismatch ⇒ rejected: a bucket column whose name the request does not carry -/
theorem C14_reject (db : List DS) (cols : List Col) (d : DS) (hd : d ∈ db) (he : d.name ≠ epochName)
    (hn : d.name ∉ cols.map (·.ds.name)) : checkAndCoerce db cols = .error .mismatch := by
  unfold checkAndCoerce
  simp only
  split
  · rfl
  · obtain ⟨m, c, hg, hm⟩ := getMissing_of_missing_name (epochDS :: db) (epochDS :: cols.map (·.ds)) (by simp) d
      (by simp [hd]) (by
        simp only [names, List.map_cons, List.mem_cons, List.map_map, not_or]
        refine ⟨he, ?_⟩
        simpa [Function.comp] using hn)
    rw [hg]
    simp only
    have : m.isEmpty = false := by cases m <;> simp_all
    simp [this]

/-- a rejected single-bucket request queues nothing and flushes nothing -/
theorem C14_reject_atomic (schema : String → Option (List DS)) (ch : Chan) (p : Part) (db : List DS)
    (hs : schema p.key = some db) (hne : p.secs ≠ []) (e : Reject) (he : checkAndCoerce db p.cols = .error e) :
    request schema ch [p] = (some e, ch, [], []) := by
  have h1 : p.secs.isEmpty = false := by cases h : p.secs <;> simp_all
  simp [request, writeCSMLoop, h1, hs, he]

/-- the request carries exactly the bucket's shapes: accepted unchanged -/
theorem C14_accept_same (db : List DS) (cols : List Col) (h : cols.map (·.ds) = db) :
    checkAndCoerce db cols = .ok cols := by
  unfold checkAndCoerce
  rw [h]
  simp only [ne_eq, not_true_eq_false, if_false]
  rw [getMissing_self (epochDS :: db) (by simp)]
  simp [List.foldlM]
  rfl

/-- same names (in any order), other numeric types ⇒ accepted, and every request column is converted
    to the type of the bucket column of the same NAME (`coerced`: `convert` on every value).
    `Defined` excludes exactly the implementation-defined float → integer conversions and the
    non-numeric (STRING16) columns. -/
theorem C14_coerce (db : List DS) (cols : List Col)
    (hnames : cols.map (·.ds.name) = names db) (hnd : (epochName :: names db).Nodup)
    (hdef : ∀ d ∈ db, ∀ c ∈ cols, c.ds.name = d.name → c.ds.ty ≠ d.ty → Defined d c) :
    checkAndCoerce db cols = .ok (cols.map (coerced db)) :=
  checkAndCoerce_same_names db cols hnames hnd hdef

/-- …and when the names are listed in the bucket's order the coerced columns carry exactly the
    bucket's shapes in the bucket's order, so the positional serialisation of `ToRowSeries` puts every
    value into the column of its own name -/
theorem C14_coerce_shapes (db : List DS) (cols : List Col)
    (hnames : cols.map (·.ds.name) = names db) (hnd : (epochName :: names db).Nodup) :
    (cols.map (coerced db)).map (·.ds) = db :=
  coerced_shapes db cols hnames (List.nodup_cons.mp hnd).2

/-- the partial theorem: a single-bucket request whose column names are the bucket's, in the
    bucket's order, is accepted, its rows are queued with the converted columns and committed
    together with whatever was pending; the write channel is empty afterwards -/
theorem C14_partial (schema : String → Option (List DS)) (ch : Chan) (p : Part) (db : List DS)
    (hs : schema p.key = some db) (hne : p.secs ≠ [])
    (hnames : p.cols.map (·.ds.name) = names db) (hnd : (epochName :: names db).Nodup)
    (hdef : ∀ d ∈ db, ∀ c ∈ p.cols, c.ds.name = d.name → c.ds.ty ≠ d.ty → Defined d c) :
    request schema ch [p] =
      (none, ⟨[]⟩, ch.pending ++ partRows p.key (p.cols.map (coerced db)) p.secs, []) := by
  have h1 : p.secs.isEmpty = false := by cases h : p.secs <;> simp_all
  simp [request, writeCSMLoop, h1, hs, C14_coerce db p.cols hnames hnd hdef]

/-- the full statement -/
def requestOK (schema : String → Option (List DS)) (ch : Chan) (parts : List Part) : Bool :=
  match request schema ch parts, specRequest schema parts with
  | (some _, ch', committed, _), _ => decide (ch' = ch) && decide (committed = [])
  | (none, _, committed, _), some rows => decide (committed = ch.pending ++ rows)
  | (none, _, _, _), none => true

/-- the full statement: a rejected request leaves the write channel as it was and commits nothing;
    an accepted one commits what was pending plus exactly the rows the specification demands
    (matched by name, converted); requests needing an implementation-defined conversion are exempt -/
def C14_full : Prop :=
  ∀ (schema : String → Option (List DS)) (ch : Chan) (parts : List Part), requestOK schema ch parts = true

def nA : Str := [65]
def nB : Str := [66]
def one32 : Bytes := [1, 0, 0, 0]
def two32 : Bytes := [2, 0, 0, 0]

def schemaAB : String → Option (List DS) := fun k =>
  if k = "G" then some [⟨nA, .i32⟩, ⟨nB, .i32⟩] else if k = "H" then some [⟨nB, .i32⟩] else none

/-- same names in another order: accepted, stored positionally — A receives B's value
    (reproduced: DESIGN §7 F8, corpus/C14/known_F8_reorder.ops) -/
theorem C14_cex_reorder : ¬ C14_full := by
  intro h
  have := h schemaAB ⟨[]⟩ [⟨"G", [⟨⟨nB, .i32⟩, [two32]⟩, ⟨⟨nA, .i32⟩, [one32]⟩], [60]⟩]
  revert this
  decide

/-- what is stored / what should be stored in the reorder counterexample -/
theorem C14_cex_reorder_values :
    (request schemaAB ⟨[]⟩ [⟨"G", [⟨⟨nB, .i32⟩, [two32]⟩, ⟨⟨nA, .i32⟩, [one32]⟩], [60]⟩]).2.2.1 = [⟨"G", 60, two32 ++ one32⟩] ∧
    specRequest schemaAB [⟨"G", [⟨⟨nB, .i32⟩, [two32]⟩, ⟨⟨nA, .i32⟩, [one32]⟩], [60]⟩] = some [⟨"G", 60, one32 ++ two32⟩] := by
  decide

/-- one request with a valid bucket G and a mismatching bucket H, G handled first: the error is
    returned but G's row stays queued and is committed by the next successful request
    (reproduced: DESIGN §7 F8b, corpus/C14/known_F8b_multi.ops) -/
theorem C14_cex_queue :
    let parts : List Part := [⟨"G", [⟨⟨nA, .i32⟩, [one32]⟩, ⟨⟨nB, .i32⟩, [two32]⟩], [60]⟩,
                              ⟨"H", [⟨⟨nA, .i32⟩, [one32]⟩, ⟨⟨nB, .i32⟩, [two32]⟩], [60]⟩]
    let r := request schemaAB ⟨[]⟩ parts
    r.1 = some .mismatch ∧ r.2.1.pending = [⟨"G", 60, one32 ++ two32⟩] ∧
    (request schemaAB r.2.1 [⟨"H", [⟨⟨nB, .i32⟩, [two32]⟩], [120]⟩]).2.2.1 =
      [⟨"G", 60, one32 ++ two32⟩, ⟨"H", 120, two32⟩] ∧
    -- with the other iteration order nothing is queued
    (request schemaAB ⟨[]⟩ parts.reverse).2.1.pending = [] := by
  decide

theorem C14_cex_queue_full : ¬ C14_full := by
  intro h
  have := h schemaAB ⟨[]⟩ [⟨"G", [⟨⟨nA, .i32⟩, [one32]⟩, ⟨⟨nB, .i32⟩, [two32]⟩], [60]⟩,
                          ⟨"H", [⟨⟨nA, .i32⟩, [one32]⟩, ⟨⟨nB, .i32⟩, [two32]⟩], [60]⟩]
  revert this
  decide

/-! non-vacuity / sanity of the conversions -/
example : convert .i32 .i64 [255, 255, 255, 255] = some [255, 255, 255, 255, 255, 255, 255, 255] := by decide
example : convert .i32 .u8 [1, 1, 0, 0] = some [1] := by decide
example : checkAndCoerce [⟨nA, .i32⟩] [⟨⟨nA, .i16⟩, [[254, 255]]⟩] = .ok [⟨⟨nA, .i32⟩, [[254, 255, 255, 255]]⟩] := by decide
example : checkAndCoerce [⟨nA, .i32⟩] [⟨⟨nB, .i32⟩, [one32]⟩] = .error .mismatch := by decide
example : Defined ⟨nA, .i32⟩ ⟨⟨nA, .f64⟩, [[0, 0, 0, 0, 0, 0, 4, 192]]⟩ ∧
    convert .f64 .i32 [0, 0, 0, 0, 0, 0, 4, 192] = some [254, 255, 255, 255] := by
  refine ⟨⟨by decide, by decide, ?_⟩, by decide⟩
  intro v hv; simp at hv; subst hv; decide
example : ¬ Defined ⟨nA, .i32⟩ ⟨⟨nA, .f64⟩, [[0, 0, 0, 0, 0, 0, 248, 127]]⟩ := by
  intro h; have := h.2.2 [0, 0, 0, 0, 0, 0, 248, 127] (by simp); revert this; decide

end Mkts.Props.C14
