#!/usr/bin/env python3
"""After /repo moved (fix commits): make every seeded/<id>/patch.diff apply to /repo's HEAD again.
For each seed: `git apply --check`; if that fails, 3-way apply in a scratch worktree and, when it
merges cleanly and builds, regenerate patch.diff from the result (meta.json records the rebase).
Prints the seeds that need manual attention."""
import glob, json, os, subprocess
V = "/verif"
head = subprocess.run(["git", "-C", "/repo", "rev-parse", "--short", "HEAD"], capture_output=True, text=True).stdout.strip()
env = dict(os.environ, GOFLAGS="-mod=mod", GOPROXY="off", GOSUMDB="off", GOTOOLCHAIN="local")
bad = []
for d in sorted(glob.glob(V + "/seeded/C*/")):
    sid = os.path.basename(d.rstrip("/"))
    pf = os.path.join(d, "patch.diff")
    r = subprocess.run(["git", "-C", "/repo", "apply", "--check", pf], capture_output=True, text=True)
    if r.returncode == 0:
        continue
    wt = "/work/sref/" + sid
    subprocess.run(["git", "-C", "/repo", "worktree", "remove", "--force", wt], capture_output=True)
    subprocess.run(["git", "-C", "/repo", "worktree", "add", "--detach", wt, "HEAD"], capture_output=True)
    r = subprocess.run(["git", "-C", wt, "apply", "--3way", pf], capture_output=True, text=True)
    ok = r.returncode == 0 and "conflict" not in (r.stdout + r.stderr).lower()
    if ok:
        b = subprocess.run(["go", "build", "./..."], cwd=wt, env=env, capture_output=True, text=True)
        ok = b.returncode == 0
    if ok:
        diff = subprocess.run(["git", "-C", wt, "diff", "HEAD"], capture_output=True, text=True).stdout
        open(pf, "w").write(diff)
        m = json.load(open(os.path.join(d, "meta.json")))
        m["rebased_onto"] = head
        json.dump(m, open(os.path.join(d, "meta.json"), "w"), indent=1)
        print("rebased", sid)
    else:
        bad.append(sid)
        print("NEEDS MANUAL REBASE", sid, (r.stdout + r.stderr)[-300:])
    subprocess.run(["git", "-C", "/repo", "worktree", "remove", "--force", wt], capture_output=True)
print("HEAD", head, "manual:", bad)
