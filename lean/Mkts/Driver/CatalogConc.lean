import Mkts.Proto
import Mkts.Model.CatalogConc
import Mkts.Driver.Catalog
import Mkts.Model.CatalogTie
/-!
Driver for the `catrace` op (C17 concurrent part), Go side: go/harness/catalog_ops.go.
  catrace <nowYear> <variant> <setup;…> <t1> <t2> <sched>
variants: `seq01`, `seq10` (one request after the other), `par` (all enabled interleavings must end
in the same state), `dc` (the schedule `<sched>`: a string of thread numbers 0/1, one per atom).
-/
namespace Mkts.Driver.CatalogConc
open Mkts.Proto Mkts.Catalog Mkts.CatalogConc Mkts.Driver.Catalog Mkts.CatalogTie

def mkThread (nowYear : Int) (sh : Shared) (s : String) : Option Thread :=
  match s.splitOn ":" with
  | ["C", items, cats, sch] => do
    let n ← parseNat sch
    match getTimeFrame (splitItems items) (splitItems cats) with
    | .ok => pure (Thread.mkCreate (splitItems items) (splitItems cats) nowYear n)
    | e => pure (.done e)
  | ["D", items] => some (Thread.mkDestroy (splitItems items))
  | ["W", items, _, ys] => do
    let yl ← parseIntList ys
    match yl, lookupP (splitItems items) sh.dmap with
    | [y], some _ => pure (Thread.mkAddYear (splitItems items) y)
    | _, _ => none
  | _ => none

def runSetup (nowYear : Int) : List String → Shared → Option Shared
  | [], sh => some sh
  | s :: rest, sh => do
    let th ← mkThread nowYear sh s
    let sys := runSeq codeVariant 0 64 ⟨[th], sh⟩
    runSetup nowYear rest sys.sh

/-- thread 0 (a Destroy) runs until its next atom is the final `root.removeSubDir` -/
def runUntilF2 : Nat → Sys → Sys
  | 0, s => s
  | f + 1, s =>
    match s.threads[0]? with
    | some (Thread.destroy _ _ _ DPc.f2) => s
    | _ => match s.step codeVariant 0 with
      | none => s
      | some s' => runUntilF2 f s'

def resStr (t : Thread) : String :=
  match t.result with
  | some r => r.str
  | none => "running"

def render (keys : List Path) (s : Sys) : String :=
  let sh := s.sh
  let live := sortS (dedup (((reachDirs sh.heap 5 0).filter (fun p => p.length == 3)).map pathStr))
  let fl := sortS ((catalogYears sh).map (fun e => pathStr e.1 ++ "/" ++ toString e.2 ++ ".bin"))
  let dk := sortS ((diskYears sh).map (fun e => pathStr e.1 ++ "/" ++ toString e.2 ++ ".bin"))
  let c := CatalogConc.consistent sh && keys.all (CatalogConc.dmapAgree sh)
  let rl := listTbk (load sh.disk)
  " ".intercalate ((s.threads.zipIdx.map (fun (t, i) => s!"T{i+1}={resStr t}")) ++
    ["L=" ++ joinOr live, "F=" ++ joinOr fl, "K=" ++ joinOr dk, "RL=" ++ joinOr rl, (if c then "/1" else "/0")])

def stepKey (s : String) : List Path :=
  match s.splitOn ":" with
  | _ :: items :: _ => let p := splitItems items; if p.length == 3 then [p] else []
  | _ => []

def catraceOp : Mkts.Proto.Op := fun args =>
  match args with
  | [ny, variant, setup, t1, t2, sched] =>
    match parseInt ny with
    | none => badArgs
    | some nowYear =>
      match runSetup nowYear (if setup == "-" then [] else setup.splitOn ";") Shared.init with
      | none => "unsupported"
      | some sh =>
        match mkThread nowYear sh t1, mkThread nowYear sh t2 with
        | some th1, some th2 =>
          let sys : Sys := ⟨[th1, th2], sh⟩
          let keys := stepKey t1 ++ stepKey t2
          let v := codeVariant
          let fin : Option Sys :=
            if variant == "seq01" then some (runSeq v 1 64 (runSeq v 0 64 sys))
            else if variant == "seq10" then some (runSeq v 0 64 (runSeq v 1 64 sys))
            else if variant == "dc" then
              -- the directed schedule of the harness: Destroy up to (not including) its final
              -- root.removeSubDir, then as much of the Create as is enabled (all of it before the
              -- repair, nothing now: it waits for `mutMu`), then the rest of Destroy, then the rest
              -- of the Create
              some (runSeq v 1 64 (runSeq v 0 64 (runSeq v 1 64 (runUntilF2 64 sys))))
            else if variant == "sched" then
              (sched.toList.mapM (fun c => if c == '0' then some 0 else if c == '1' then some 1 else none)).bind (Sys.run v sys)
            else if variant == "par" then
              match (explore v 64 sys).map (render keys) |>.eraseDups with
              | [_] => (explore v 64 sys).head?
              | _ => none
            else none
          match fin with
          | none => "M:nondet-or-disabled"
          | some f =>
            let line := render keys f
            let ok := f.finished
            let hyps : List String := []
            s!"M:{line}{if ok then "" else " unfinished"}\tS:~ /1\tH:{",".intercalate hyps}"
        | _, _ => "unsupported"
  | _ => badArgs

def ops : OpTable := [("catrace", catraceOp)]

end Mkts.Driver.CatalogConc
