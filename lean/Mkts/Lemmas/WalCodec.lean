import Mkts.Model.WalCodec
/-! Helper lemmas for the WAL codec round trip (C28) -/
namespace Mkts.WalCodec
open Mkts.Bytes

/-! ### integers -/

theorem leInt_length (w : Nat) (i : Int) : (leInt w i).length = w := by
  simp [leInt]

/-- two's-complement round trip on `w` bytes for every value in the signed range -/
theorem leDecodeInt_leInt (w : Nat) (i : Int)
    (h1 : -((256 ^ w : Nat) : Int) ≤ 2 * i) (h2 : 2 * i < ((256 ^ w : Nat) : Int)) :
    leDecodeInt (leInt w i) = i := by
  have hK : 0 < 256 ^ w := Nat.pow_pos (by decide)
  generalize hKd : 256 ^ w = K at *
  have hlen : (leInt w i).length = w := leInt_length w i
  unfold leDecodeInt
  rw [hlen, hKd]
  unfold leInt
  rw [leDecode_le, hKd]
  have hm0 : 0 ≤ i % (K : Int) := Int.emod_nonneg _ (by omega)
  have hm1 : i % (K : Int) < K := Int.emod_lt_of_pos _ (by omega)
  have hn : ((i % (K : Int)).toNat : Int) = i % (K : Int) := Int.toNat_of_nonneg hm0
  have hmod : (i % (K : Int)).toNat % K = (i % (K : Int)).toNat := Nat.mod_eq_of_lt (by omega)
  rw [hmod]
  by_cases hi : 0 ≤ i
  · have : i % (K : Int) = i := Int.emod_eq_of_lt hi (by omega)
    rw [this] at hn ⊢
    have : 2 * i.toNat < K := by omega
    simp only [this, if_true]; omega
  · have h3 : (i + K) % (K : Int) = i + K := Int.emod_eq_of_lt (by omega) (by omega)
    have h4 : (i + K) % (K : Int) = i % (K : Int) := Int.add_emod_right _ _
    rw [← h4, h3] at hn ⊢
    have : ¬ 2 * (i + (K : Int)).toNat < K := by omega
    simp only [this, if_false]; omega

theorem leDecode_le1 (n : Nat) (h : n < 256) : leDecode (le 1 n) = n := by
  rw [leDecode_le_of_lt]; simpa using h

/-! ### slicing -/

theorem takeN_append (a r : Bytes) : takeN (a ++ r) (a.length : Int) = .ok (a, r) := by
  simp [takeN]; omega

theorem takeN_append' (a r : Bytes) (n : Int) (h : n = a.length) : takeN (a ++ r) n = .ok (a, r) := by
  subst h; exact takeN_append a r

/-! ### data shapes -/

def wfShape (d : DataShape) : Prop := d.name.length ≤ 255 ∧ d.typ < 256

theorem dsFromBytes_toBytes (d : DataShape) (r : Bytes) (h : wfShape d) :
    dsFromBytes (dsToBytes d ++ r) = .ok (d, r) := by
  obtain ⟨h1, h2⟩ := h
  unfold dsFromBytes dsToBytes
  rw [List.append_assoc, List.append_assoc, takeN_append' (le 1 d.name.length) _ 1 (by simp)]
  simp only
  rw [leDecode_le1 _ (by omega), takeN_append]
  simp only [le, List.nil_append, List.cons_append]
  have : (UInt8.ofNat (d.typ % 256)).toNat = d.typ := by
    simp [UInt8.toNat_ofNat']; omega
  rw [this]

theorem dsLoop_flatten (l : List DataShape) (r : Bytes) (h : ∀ d ∈ l, wfShape d) :
    dsLoop l.length ((l.map dsToBytes).flatten ++ r) = .ok (l, r) := by
  induction l with
  | nil => rfl
  | cons d l ih =>
    simp only [List.map_cons, List.flatten_cons, List.length_cons, List.append_assoc, dsLoop]
    rw [dsFromBytes_toBytes d _ (h d (by simp))]
    simp only
    rw [ih (fun d hd => h d (by simp [hd]))]

theorem dsvFromBytes_toBytes (l : List DataShape) (r : Bytes) (h0 : 1 ≤ l.length) (h1 : l.length ≤ 255)
    (h : ∀ d ∈ l, wfShape d) : dsvFromBytes (dsvToBytes l ++ r) = .ok (l, r) := by
  unfold dsvFromBytes dsvToBytes
  have : ¬ l.length % 256 = 0 := by omega
  simp only [this, if_false]
  rw [List.append_assoc, takeN_append' (le 1 l.length) _ 1 (by simp)]
  simp only
  rw [leDecode_le1 _ (by omega), dsLoop_flatten l r h]

/-! ### commands -/

/-- constraints that Go's static types already impose on a `WriteCommand` / a TG id -/
structure TypeOk (c : WriteCommand) : Prop where
  rt : -128 ≤ c.recordType ∧ c.recordType < 128
  off : -2 ^ 63 ≤ c.offset ∧ c.offset < 2 ^ 63
  idx : -2 ^ 63 ≤ c.index ∧ c.index < 2 ^ 63
  vrl : -2 ^ 63 ≤ c.varRecLen ∧ c.varRecLen < 2 ^ 63
  typ : ∀ d ∈ c.shapes, d.typ < 256

/-- the width bounds: exactly the ranges of the conversion types at the `Serialize` call sites -/
structure WidthOk (c : WriteCommand) : Prop where
  path : c.path.length < 2 ^ 15                         -- int16(len(WALKeyPath))
  data : c.data.length < 2 ^ 31                         -- int32(len(Data))
  vrl : -2 ^ 31 ≤ c.varRecLen ∧ c.varRecLen < 2 ^ 31    -- int32(VarRecLen)
  cols1 : 1 ≤ c.shapes.length                           -- DSVToBytes writes nothing for 0 columns
  cols : c.shapes.length ≤ 255                          -- uint8(len(dss))
  names : ∀ d ∈ c.shapes, d.name.length ≤ 255           -- uint8(len(ds.Name))

theorem cmdBuffer_length (c : WriteCommand) : (cmdBuffer c).length = 16 + c.data.length := by
  simp [cmdBuffer, leInt_length, offsetBytes, indexBytes]; omega

theorem parseWTSet_serializeCmd (c : WriteCommand) (r : Bytes) (ht : TypeOk c) (hw : WidthOk c) :
    parseWTSet (serializeCmd c ++ r) = .ok (toWTSet c, r) := by
  have hrt : leDecodeInt (leInt recordTypeBytes c.recordType) = c.recordType :=
    leDecodeInt_leInt _ _ (by have := ht.rt; simp [recordTypeBytes]; omega)
      (by have := ht.rt; simp [recordTypeBytes]; omega)
  have hfl : leDecodeInt (leInt fpLenBytes c.path.length) = c.path.length :=
    leDecodeInt_leInt _ _ (by simp [fpLenBytes]; omega) (by have := hw.path; simp [fpLenBytes]; omega)
  have hdl : leDecodeInt (leInt dataLenBytes c.data.length) = c.data.length :=
    leDecodeInt_leInt _ _ (by simp [dataLenBytes]; omega) (by have := hw.data; simp [dataLenBytes]; omega)
  have hvl : leDecodeInt (leInt varRecLenBytes c.varRecLen) = c.varRecLen :=
    leDecodeInt_leInt _ _ (by have := hw.vrl; simp [varRecLenBytes]; omega)
      (by have := hw.vrl; simp [varRecLenBytes]; omega)
  unfold parseWTSet serializeCmd
  simp only [List.append_assoc]
  rw [takeN_append' (leInt recordTypeBytes c.recordType) _ _ (by simp [leInt_length])]
  simp only
  rw [takeN_append' (leInt fpLenBytes _) _ _ (by simp [leInt_length])]
  simp only
  rw [hfl, takeN_append]
  simp only
  rw [takeN_append' (leInt dataLenBytes _) _ _ (by simp [leInt_length])]
  simp only
  rw [takeN_append' (leInt varRecLenBytes _) _ _ (by simp [leInt_length])]
  simp only
  rw [hdl, takeN_append' (cmdBuffer c) _ _ (by rw [cmdBuffer_length]; simp [offsetBytes, indexBytes])]
  simp only
  rw [dsvFromBytes_toBytes c.shapes r hw.cols1 hw.cols (fun d hd => ⟨hw.names d hd, ht.typ d hd⟩)]
  simp only [hrt, hvl, toWTSet]

theorem parseWTSets_serialize (cs : List WriteCommand) (r : Bytes)
    (h : ∀ c ∈ cs, TypeOk c ∧ WidthOk c) :
    parseWTSets cs.length ((cs.map serializeCmd).flatten ++ r) = .ok (cs.map toWTSet, r) := by
  induction cs with
  | nil => rfl
  | cons c cs ih =>
    simp only [List.map_cons, List.flatten_cons, List.length_cons, List.append_assoc, parseWTSets]
    rw [parseWTSet_serializeCmd c _ (h c (by simp)).1 (h c (by simp)).2]
    simp only
    rw [ih (fun c hc => h c (by simp [hc]))]

/-- lengths are encoded modulo `256^w` -/
theorem leInt_sub_pow (w : Nat) (i : Int) : leInt w (i - ((256 ^ w : Nat) : Int)) = leInt w i := by
  unfold leInt
  have : (i - ((256 ^ w : Nat) : Int)) % ((256 ^ w : Nat) : Int) = i % ((256 ^ w : Nat) : Int) := by
    rw [← Int.add_emod_right (i - ((256 ^ w : Nat) : Int))]
    congr 1; omega
  rw [this]

theorem takeN_neg (b : Bytes) (n : Int) (h : n < 0) : takeN b n = .error .slice := by
  unfold takeN
  have : ¬ (0 ≤ n ∧ n ≤ (b.length : Int)) := by omega
  simp only [this, if_false]

/-- a key path of 32768…65535 bytes is written with a negative `int16` length: the decoder panics -/
theorem parseWTSet_longpath (c : WriteCommand) (r : Bytes)
    (h1 : 2 ^ 15 ≤ c.path.length) (h2 : c.path.length < 2 ^ 16) :
    parseWTSet (serializeCmd c ++ r) = .error .slice := by
  have hfl : leDecodeInt (leInt fpLenBytes c.path.length) = (c.path.length : Int) - 65536 := by
    have := leInt_sub_pow fpLenBytes (c.path.length : Int)
    rw [← this]
    have e : ((256 ^ fpLenBytes : Nat) : Int) = 65536 := by simp [fpLenBytes]
    rw [e]
    exact leDecodeInt_leInt _ _ (by rw [e]; omega) (by rw [e]; omega)
  unfold parseWTSet serializeCmd
  simp only [List.append_assoc]
  rw [takeN_append' (leInt recordTypeBytes c.recordType) _ _ (by simp [leInt_length])]
  simp only
  rw [takeN_append' (leInt fpLenBytes _) _ _ (by simp [leInt_length])]
  simp only
  rw [hfl, takeN_neg _ _ (by omega)]

end Mkts.WalCodec
