import Mkts.Lemmas.Coerce
/-! Lemmas for the coercion theorem of C14 (same names, other numeric types). Core Lean only. -/
namespace Mkts.Coerce

/-! ### unique names -/

theorem find_unique (l : List DS) (h : (names l).Nodup) (m : DS) (hm : m ∈ l) :
    l.find? (fun x => decide (x.name = m.name)) = some m := by
  induction l with
  | nil => simp at hm
  | cons a t ih =>
    simp only [names, List.map_cons, List.nodup_cons] at h
    simp only [List.mem_cons] at hm
    rcases hm with rfl | hm
    · simp
    · have hne : a.name ≠ m.name := by
        intro he
        exact h.1 (he ▸ List.mem_map.mpr ⟨m, hm, rfl⟩)
      simp only [List.find?_cons, hne, decide_false]
      exact ih h.2 hm

theorem nodup_reverse {α} (l : List α) (h : l.Nodup) : l.reverse.Nodup := by
  unfold List.Nodup at h ⊢
  rw [List.pairwise_reverse]
  exact h.imp (fun hab => fun e => hab e.symm)

theorem filterMap_some_self {α} (l : List α) (f : α → Option α) (h : ∀ m ∈ l, f m = some m) : l.filterMap f = l := by
  induction l with
  | nil => rfl
  | cons a t ih =>
    simp only [List.filterMap_cons, h a (by simp)]
    rw [ih (fun m hm => h m (by simp [hm]))]

theorem names_reverse (l : List DS) : names l.reverse = (names l).reverse := by simp [names]

theorem extract_filter (req : List DS) (h : (names req).Nodup) (q : DS → Bool) :
    extract req (names (req.filter q)) = req.filter q := by
  unfold extract
  simp only [names, List.filterMap_map]
  have hr : (names req.reverse).Nodup := by rw [names_reverse]; exact nodup_reverse _ h
  have : ∀ m ∈ req.filter q, ((fun n => req.reverse.find? (fun x => decide (x.name = n))) ∘ DS.name) m = some m := by
    intro m hm
    have hm' : m ∈ req.reverse := by simpa using (List.mem_filter.mp hm).1
    exact find_unique req.reverse hr m hm'
  exact filterMap_some_self _ _ this

/-! ### `GetMissingAndTypeCoercionColumns` when the names agree -/

theorem all_mem_of_contains {α} [DecidableEq α] (set input : List α) (h : contains set input = true) :
    ∀ x ∈ input, x ∈ set := by
  intro x hx
  by_cases hs : x ∈ set
  · exact hs
  · rw [contains_false_of_not_mem set input x hx hs] at h; cases h

theorem subtract_filter {α} [DecidableEq α] (set input : List α) (hi : input ≠ []) :
    subtract set input = set.filter (fun x => decide (x ∉ input)) := by
  unfold subtract
  have : input.isEmpty = false := by cases input <;> simp_all
  simp only [this, Bool.false_eq_true, if_false]
  apply List.filter_congr
  intro x hx
  simp [mem_intersect, hx]

theorem getMissing_same_names (req avail : List DS) (hne : req ≠ []) (hav : avail ≠ [])
    (hn : ∀ n ∈ names req, n ∈ names avail) (hnd : (names req).Nodup) :
    getMissingAndTypeCoercionColumns req avail = .ok ([], req.filter (fun d => decide (d ∉ avail))) := by
  have e1 : avail.isEmpty = false := by cases avail <;> simp_all
  have e2 : req.isEmpty = false := by cases req <;> simp_all
  unfold getMissingAndTypeCoercionColumns
  simp only [e1, e2, Bool.false_eq_true, if_false]
  split
  · rename_i hc
    have hall := all_mem_of_contains avail req hc
    have : req.filter (fun d => decide (d ∉ avail)) = [] := by
      rw [List.filter_eq_nil_iff]; intro a ha; simpa using hall a ha
    rw [this]
  · have hM : subtract req avail = req.filter (fun d => decide (d ∉ avail)) := subtract_filter req avail hav
    have hN : subtract (names req) (names avail) = [] := by
      rw [subtract_filter _ _ (by simpa [names] using hav), List.filter_eq_nil_iff]
      intro a ha; simpa using hn a ha
    simp only [hM, hN, List.length_nil]
    have hx : extract req [] = [] := rfl
    split
    · rename_i hl
      have : req.filter (fun d => decide (d ∉ avail)) = [] := List.eq_nil_of_length_eq_zero hl
      rw [this, hx]
    · rename_i hl
      have e3 : (req.filter (fun d => decide (d ∉ avail))).isEmpty = false := by
        cases h : req.filter (fun d => decide (d ∉ avail)) with
        | nil => rw [h] at hl; simp at hl
        | cons a t => rfl
      simp only [e3, Bool.false_eq_true, if_false, hx]
      have : subtract (names (req.filter (fun d => decide (d ∉ avail)))) [] = names (req.filter (fun d => decide (d ∉ avail))) := by
        simp [subtract]
      rw [this, extract_filter req hnd]

/-! ### the coercion loop -/

/-- column `c` converted to the type of `d` -/
def conv1 (d : DS) (c : Col) : Col := ⟨⟨c.ds.name, d.ty⟩, c.vals.map (fun v => (convert c.ds.ty d.ty v).getD [])⟩

def stepPure (d : DS) (c : Col) : Col := if c.ds.name = d.name then conv1 d c else c

/-- the conversion of column `c` to the type of `d` is inside the model: numeric source and target,
    no implementation-defined float → integer conversion among the values -/
def Defined (d : DS) (c : Col) : Prop :=
  d.ty ≠ .str16 ∧ c.ds.ty.kind ≠ .other ∧ ∀ v ∈ c.vals, (convert c.ds.ty d.ty v).isSome = true

theorem stepPure_name (d : DS) (c : Col) : (stepPure d c).ds.name = c.ds.name := by
  unfold stepPure; split <;> simp [conv1]

theorem option_mapM_some {α β} (l : List α) (f : α → Option β) (dflt : β) (h : ∀ v ∈ l, (f v).isSome = true) :
    l.mapM f = some (l.map (fun v => (f v).getD dflt)) := by
  induction l with
  | nil => rfl
  | cons a t ih =>
    obtain ⟨b, hb⟩ := Option.isSome_iff_exists.mp (h a (by simp))
    rw [List.mapM_cons, hb, ih (fun v hv => h v (by simp [hv]))]
    simp [hb]

theorem except_mapM_ok {ε α β} (l : List α) (f : α → Except ε β) (g : α → β) (h : ∀ x ∈ l, f x = .ok (g x)) :
    l.mapM f = .ok (l.map g) := by
  induction l with
  | nil => rfl
  | cons a t ih =>
    rw [List.mapM_cons, h a (by simp), ih (fun x hx => h x (by simp [hx]))]
    rfl

theorem coerceColumn_ok (cols : List Col) (d : DS) (hty : d.ty ≠ .str16)
    (h : ∀ c ∈ cols, c.ds.name = d.name → Defined d c) : coerceColumn cols d = .ok (cols.map (stepPure d)) := by
  unfold coerceColumn
  rw [if_neg hty]
  apply except_mapM_ok
  intro c hc
  unfold stepPure
  by_cases hn : c.ds.name = d.name
  · obtain ⟨_, hk, hv⟩ := h c hc hn
    simp only [hn, if_true, hk, if_false]
    rw [option_mapM_some c.vals _ [] hv]
    simp [conv1, hn]
  · simp [hn]

theorem nodup_cons_names (d : DS) (D : List DS) (h : (names (d :: D)).Nodup) :
    (∀ d' ∈ D, d'.name ≠ d.name) ∧ (names D).Nodup := by
  simp only [names, List.map_cons, List.nodup_cons] at h
  exact ⟨fun d' hd' he => h.1 (he ▸ List.mem_map.mpr ⟨d', hd', rfl⟩), h.2⟩

theorem coerce_fold (D : List DS) (hD : (names D).Nodup) (cols : List Col)
    (h : ∀ d ∈ D, d.ty ≠ .str16 ∧ ∀ c ∈ cols, c.ds.name = d.name → Defined d c) :
    D.foldlM coerceColumn cols = .ok (cols.map (fun c => D.foldl (fun c d => stepPure d c) c)) := by
  induction D generalizing cols with
  | nil => simp [List.foldlM]; rfl
  | cons d D' ih =>
    obtain ⟨hne, hD'⟩ := nodup_cons_names d D' hD
    have hd := h d (by simp)
    rw [List.foldlM_cons, coerceColumn_ok cols d hd.1 hd.2]
    have := ih hD' (cols.map (stepPure d)) (by
      intro d' hd'
      refine ⟨(h d' (by simp [hd'])).1, ?_⟩
      intro c1 hc1 hn1
      obtain ⟨c, hc, rfl⟩ := List.mem_map.mp hc1
      rw [stepPure_name] at hn1
      have : stepPure d c = c := by
        unfold stepPure; rw [if_neg]; intro he; exact hne d' hd' (hn1.symm.trans he)
      rw [this]
      exact (h d' (by simp [hd'])).2 c hc hn1)
    show (D'.foldlM coerceColumn (cols.map (stepPure d))) = _
    rw [this, List.map_map]
    rfl

theorem fold_no_match (D : List DS) (c : Col) (h : ∀ d ∈ D, d.name ≠ c.ds.name) :
    D.foldl (fun c d => stepPure d c) c = c := by
  induction D generalizing c with
  | nil => rfl
  | cons d D' ih =>
    have : stepPure d c = c := by
      unfold stepPure; rw [if_neg]; intro he; exact h d (by simp) he.symm
    rw [List.foldl_cons, this]
    exact ih c (fun d' hd' => h d' (by simp [hd']))

theorem fold_find (D : List DS) (hD : (names D).Nodup) (c : Col) :
    D.foldl (fun c d => stepPure d c) c =
      match D.find? (fun d => decide (d.name = c.ds.name)) with
      | some d => conv1 d c
      | none => c := by
  induction D generalizing c with
  | nil => rfl
  | cons d D' ih =>
    obtain ⟨hne, hD'⟩ := nodup_cons_names d D' hD
    rw [List.foldl_cons, List.find?_cons]
    by_cases hn : c.ds.name = d.name
    · have h1 : stepPure d c = conv1 d c := by unfold stepPure; rw [if_pos hn]
      have h2 : decide (d.name = c.ds.name) = true := by simp [hn]
      rw [h1, h2]
      simp only
      apply fold_no_match
      intro d' hd'
      simp only [conv1]
      rw [hn]; exact hne d' hd'
    · have h1 : stepPure d c = c := by unfold stepPure; rw [if_neg hn]
      have h2 : decide (d.name = c.ds.name) = false := by simp; exact fun e => hn e.symm
      rw [h1, h2]
      exact ih hD' c

/-! ### assembling: same names (any order of types), unique names -/

/-- the request column converted to the type of the BUCKET column of the same NAME -/
def coerced (db : List DS) (c : Col) : Col :=
  match db.find? (fun d => decide (d.name = c.ds.name)) with
  | some d => if c.ds.ty = d.ty then c else conv1 d c
  | none => c

theorem nodup_names_filter (l : List DS) (q : DS → Bool) (h : (names l).Nodup) : (names (l.filter q)).Nodup := by
  unfold names at h ⊢
  exact List.Nodup.sublist (List.Sublist.map _ List.filter_sublist) h

theorem col_unique (cols : List Col) (h : (cols.map (·.ds.name)).Nodup) (c c' : Col) (hc : c ∈ cols) (hc' : c' ∈ cols)
    (hn : c.ds.name = c'.ds.name) : c = c' := by
  induction cols with
  | nil => simp at hc
  | cons a t ih =>
    simp only [List.map_cons, List.nodup_cons] at h
    simp only [List.mem_cons] at hc hc'
    rcases hc with rfl | hc <;> rcases hc' with rfl | hc'
    · rfl
    · exact absurd (List.mem_map.mpr ⟨c', hc', hn.symm⟩) h.1
    · exact absurd (List.mem_map.mpr ⟨c, hc, hn⟩) h.1
    · exact ih h.2 hc hc'

/-- same SET of names (any order), unique names on both sides -/
theorem checkAndCoerce_by_name (db : List DS) (cols : List Col)
    (hlen : db.length = cols.length) (hnd : (epochName :: names db).Nodup) (hcn : (cols.map (·.ds.name)).Nodup)
    (hdbc : ∀ d ∈ db, d.name ∈ cols.map (·.ds.name)) (hcdb : ∀ c ∈ cols, c.ds.name ∈ names db)
    (hdef : ∀ d ∈ db, ∀ c ∈ cols, c.ds.name = d.name → c.ds.ty ≠ d.ty → Defined d c) :
    checkAndCoerce db cols = .ok (cols.map (coerced db)) := by
  have hndb : (names db).Nodup := (List.nodup_cons.mp hnd).2
  have hep : ∀ d ∈ db, d.name ≠ epochName := by
    intro d hd he
    exact (List.nodup_cons.mp hnd).1 (he ▸ List.mem_map.mpr ⟨d, hd, rfl⟩)
  have hnreq : ∀ n ∈ names (epochDS :: db), n ∈ names (epochDS :: cols.map (·.ds)) := by
    intro n hn
    simp only [names, List.map_cons, List.map_map, List.mem_cons] at hn ⊢
    rcases hn with rfl | hn
    · exact Or.inl rfl
    · obtain ⟨d, hd, rfl⟩ := List.mem_map.mp hn
      exact Or.inr (hdbc d hd)
  have hndreq : (names (epochDS :: db)).Nodup := by simpa [names, epochDS] using hnd
  have hg := getMissing_same_names (epochDS :: db) (epochDS :: cols.map (·.ds)) (by simp) (by simp) hnreq hndreq
  -- the coercion list: bucket columns whose exact shape the request does not carry
  have hD0 : (epochDS :: db).filter (fun d => decide (d ∉ epochDS :: cols.map (·.ds))) =
      db.filter (fun d => decide (d ∉ epochDS :: cols.map (·.ds))) := by
    simp [List.filter_cons]
  rw [hD0] at hg
  unfold checkAndCoerce
  simp only [List.length_cons, List.length_map, hlen, ne_eq, not_true_eq_false, if_false, hg]
  simp only [List.isEmpty_nil, Bool.not_true, Bool.false_eq_true, if_false]
  have hmemD : ∀ d, d ∈ db.filter (fun d => decide (d ∉ epochDS :: cols.map (·.ds))) ↔
      d ∈ db ∧ d ∉ cols.map (·.ds) := by
    intro d
    simp only [List.mem_filter, List.mem_cons, not_or, decide_eq_true_eq]
    constructor
    · rintro ⟨h1, _, h3⟩; exact ⟨h1, h3⟩
    · rintro ⟨h1, h3⟩
      refine ⟨h1, ?_, h3⟩
      intro he; exact hep d h1 (by rw [he]; rfl)
  have hDnd := nodup_names_filter db (fun d => decide (d ∉ epochDS :: cols.map (·.ds))) hndb
  rw [coerce_fold _ hDnd cols (by
    intro d hd
    obtain ⟨hdb, hnc⟩ := (hmemD d).mp hd
    -- a request column of that name exists, and its type differs
    have hex : d.name ∈ cols.map (·.ds.name) := hdbc d hdb
    obtain ⟨c0, hc0, hn0⟩ := List.mem_map.mp hex
    have hty : ∀ c ∈ cols, c.ds.name = d.name → c.ds.ty ≠ d.ty := by
      intro c hc hn ht
      apply hnc
      have : c.ds = d := by cases hcd : c.ds; cases d; simp_all
      exact this ▸ List.mem_map.mpr ⟨c, hc, rfl⟩
    exact ⟨(hdef d hdb c0 hc0 hn0 (hty c0 hc0 hn0)).1, fun c hc hn => hdef d hdb c hc hn (hty c hc hn)⟩)]
  congr 1
  apply List.map_congr_left
  intro c hc
  rw [fold_find _ hDnd c]
  unfold coerced
  -- the bucket column of c's name
  have hex : c.ds.name ∈ names db := hcdb c hc
  obtain ⟨dn, hdn, hnn⟩ := List.mem_map.mp hex
  have hfdb : db.find? (fun d => decide (d.name = c.ds.name)) = some dn := by
    have := find_unique db hndb dn hdn
    rw [hnn] at this; exact this
  rw [hfdb]
  by_cases hty : c.ds.ty = dn.ty
  · -- same shape: not in the coercion list
    have hcd : c.ds = dn := by cases hcds : c.ds; cases dn; simp_all
    have hnone : (db.filter (fun d => decide (d ∉ epochDS :: cols.map (·.ds)))).find? (fun d => decide (d.name = c.ds.name)) = none := by
      rw [List.find?_eq_none]
      intro d hd
      obtain ⟨hdb, hnc⟩ := (hmemD d).mp hd
      simp only [decide_eq_true_eq]
      intro hn
      -- by uniqueness d = dn = c.ds ∈ request shapes
      have : d = dn := by
        have h1 := find_unique db hndb d hdb
        rw [hn, hfdb] at h1
        exact (Option.some.inj h1).symm
      exact hnc (this ▸ hcd ▸ List.mem_map.mpr ⟨c, hc, rfl⟩)
    rw [hnone]
    simp [hty]
  · have hdnD : dn ∈ db.filter (fun d => decide (d ∉ epochDS :: cols.map (·.ds))) := by
      rw [hmemD]
      refine ⟨hdn, ?_⟩
      intro hmem
      obtain ⟨c', hc', hcd'⟩ := List.mem_map.mp hmem
      have : c' = c := col_unique cols hcn c' c hc' hc (by rw [hcd', hnn])
      rw [this] at hcd'
      exact hty (by rw [hcd'])
    have := find_unique _ hDnd dn hdnD
    rw [hnn] at this
    rw [this]
    simp [hty]

theorem checkAndCoerce_same_names (db : List DS) (cols : List Col)
    (hnames : cols.map (·.ds.name) = names db) (hnd : (epochName :: names db).Nodup)
    (hdef : ∀ d ∈ db, ∀ c ∈ cols, c.ds.name = d.name → c.ds.ty ≠ d.ty → Defined d c) :
    checkAndCoerce db cols = .ok (cols.map (coerced db)) := by
  have hlen : db.length = cols.length := by
    have := congrArg List.length hnames
    simpa [names] using this.symm
  apply checkAndCoerce_by_name db cols hlen hnd (hnames ▸ (List.nodup_cons.mp hnd).2)
  · intro d hd; rw [hnames]; exact List.mem_map.mpr ⟨d, hd, rfl⟩
  · intro c hc; rw [← hnames]; exact List.mem_map.mpr ⟨c, hc, rfl⟩
  · exact hdef

/-- after the coercion the request's columns carry exactly the bucket's shapes, in the request's
    order — which is the bucket's order when the names are listed in bucket order -/
theorem coerced_shapes (db : List DS) (cols : List Col) (hnames : cols.map (·.ds.name) = names db)
    (hndb : (names db).Nodup) : (cols.map (coerced db)).map (·.ds) = db := by
  have key : ∀ c ∈ cols, ∀ d ∈ db, d.name = c.ds.name → (coerced db c).ds = d := by
    intro c _ d hd hn
    have hf := find_unique db hndb d hd
    rw [hn] at hf
    unfold coerced
    rw [hf]
    by_cases hty : c.ds.ty = d.ty
    · simp only [hty, if_true]
      cases hcd : c.ds; cases d; simp_all
    · simp only [hty, if_false, conv1]
      cases d; simp_all
  -- positional pairing through the equal name lists
  have hlen : cols.length = db.length := by simpa [names] using congrArg List.length hnames
  apply List.ext_getElem
  · simp [hlen]
  · intro i h1 h2
    simp only [List.getElem_map]
    have hi : i < cols.length := by simpa using h1
    have hnm : (cols.map (·.ds.name))[i]'(by simpa using hi) = (names db)[i]'(by simpa [names] using h2) := by
      simp only [hnames]
    simp only [names, List.getElem_map] at hnm
    exact key cols[i] (List.getElem_mem _) db[i] (List.getElem_mem _) hnm.symm

/-! ### the repaired `WriteCSM`: bucket order, and nothing queued by a failing request -/

theorem coerced_name (db : List DS) (c : Col) : (coerced db c).ds.name = c.ds.name := by
  unfold coerced
  split
  · split <;> simp [conv1]
  · rfl

theorem coerced_ds (db : List DS) (hndb : (names db).Nodup) (c : Col) (d : DS) (hd : d ∈ db)
    (hn : d.name = c.ds.name) : (coerced db c).ds = d := by
  have hf := find_unique db hndb d hd
  rw [hn] at hf
  unfold coerced
  rw [hf]
  by_cases hty : c.ds.ty = d.ty
  · simp only [hty, if_true]
    cases hcd : c.ds; cases d; simp_all
  · simp only [hty, if_false, conv1]
    cases d; simp_all

theorem filterMap_map_id {α β} (l : List α) (f : α → Option β) (h : β → α)
    (hf : ∀ d ∈ l, ∃ x, f d = some x ∧ h x = d) : (l.filterMap f).map h = l := by
  induction l with
  | nil => rfl
  | cons a t ih =>
    obtain ⟨x, hx, hh⟩ := hf a (by simp)
    simp only [List.filterMap_cons, hx, List.map_cons, hh]
    rw [ih (fun d hd => hf d (by simp [hd]))]

/-- after `cs.Project(bucket names)` the coerced columns carry exactly the bucket's shapes in the
    BUCKET's order, whatever the order of the request -/
theorem projected_shapes (db : List DS) (cols : List Col) (hndb : (names db).Nodup)
    (hdbc : ∀ d ∈ db, d.name ∈ cols.map (·.ds.name)) :
    (projectCols (names db) (cols.map (coerced db))).map (·.ds) = db := by
  unfold projectCols names
  rw [List.filterMap_map]
  apply filterMap_map_id
  intro d hd
  obtain ⟨c0, hc0, hn0⟩ := List.mem_map.mp (hdbc d hd)
  have hsome : ((cols.map (coerced db)).find? (fun c => decide (c.ds.name = d.name))).isSome = true := by
    rw [List.find?_isSome]
    exact ⟨coerced db c0, List.mem_map.mpr ⟨c0, hc0, rfl⟩, by simp [coerced_name, hn0]⟩
  obtain ⟨x, hx⟩ := Option.isSome_iff_exists.mp hsome
  refine ⟨x, hx, ?_⟩
  have hmem := List.mem_of_find?_eq_some hx
  have hp := List.find?_some hx
  obtain ⟨c, _, rfl⟩ := List.mem_map.mp hmem
  simp only [decide_eq_true_eq, coerced_name] at hp
  exact coerced_ds db hndb c d hd hp.symm

theorem loop_atomic (o : Bool) (schema : String → Option (List DS)) (parts : List Part) (q : List Queued)
    (created : List (String × List DS)) (e : Reject)
    (h : (writeCSMLoop ⟨o, true⟩ schema parts q created).1 = some e) :
    (writeCSMLoop ⟨o, true⟩ schema parts q created).2.1 = [] := by
  induction parts generalizing q created with
  | nil => simp [writeCSMLoop] at h
  | cons p rest ih =>
    unfold writeCSMLoop at h ⊢
    split
    · rename_i hs; simp only [hs, if_true] at h; exact ih _ _ h
    · rename_i hs
      simp only [hs, if_false] at h ⊢
      split
      · rfl
      · rename_i cols' hok
        simp only [hok] at h
        exact ih _ _ h

end Mkts.Coerce
