import Mkts.Lemmas.WalReplay
import Mkts.Extracted.Facts
/-!
# C06 — WAL replay tolerates arbitrary damage to the log

Model: `Mkts.WalReplay.scan` (first pass of `Replay`), `secondPass`, `replay`, `cleanup`
(`CleanupOldWALFiles` for one file).  The checksum function `md5` is an arbitrary parameter in every
theorem.  Proved for all byte strings: the scanner terminates, only checksum-valid records are ever
applied.  The "never panics / keeps applying what precedes the damage" half is false of the code:
counterexample theorems, and `C06_partial` with the excluded classes as hypotheses.
-/
namespace Mkts.Props.C06
open Mkts.Bytes Mkts.WalCodec Mkts.WalReplay

/-! ## totality: the scan loop cannot run forever -/

/-- every iteration that continues consumes at least one byte of the file … -/
theorem C06_progress (md5 : Bytes → Bytes) (fsz : Nat) (r r' : Bytes) (st st' : St)
    (h : step md5 fsz r st = .cont r' st') : r'.length < r.length := step_cont_lt md5 h

/-- … hence `length + 1` iterations always suffice: the first pass terminates on every input -/
theorem C06_terminates (md5 : Bytes → Bytes) (f : Bytes) : scan md5 f ≠ .fuel :=
  scanLoop_fuel md5 f.length (f.length + 1) f {} (by omega)

/-! ## safety: only checksum-valid records are applied -/

/-- whatever the file contains, every group the first pass keeps is a complete record of the file
whose stored checksum equals `md5 (length ++ data)` -/
theorem C06_safety_scan (md5 : Bytes → Bytes) (f : Bytes) (st : St) (h : scan md5 f = .done st) :
    ∀ id tg, (id, some tg) ∈ st.tgData → ValidRecordIn md5 f tg :=
  scanLoop_safe md5 f f.length _ f {} st ⟨[], rfl⟩ (by intro id tg h; simp at h) h

/-- every byte that replay writes to a primary file comes from parsing such a record -/
theorem C06_safety (md5 : Bytes → Bytes) (ex : Bytes → Bool) (root f : Bytes) :
    ∀ w ∈ (replay md5 ex root f).writes, ∃ tg id sets, ValidRecordIn md5 f tg ∧
      parseTGData tg = .ok (id, sets) ∧ w ∈ setsWrites ex root sets := by
  intro w hw
  unfold replay at hw
  split at hw
  · simp at hw
  · simp at hw
  · simp at hw
  · simp at hw
  · rename_i st hs
    rcases secondPass_writes ex root _ _ w hw with h | ⟨a, ha, id, sets, hp, hmem⟩
    · simp at h
    · exact ⟨a.2, id, sets, C06_safety_scan md5 f st hs a.1 a.2 (mem_pending ha), hp, hmem⟩

/-- the same for the whole startup path of one file (`f'` = the file after its status header was rewritten) -/
theorem C06_safety_cleanup (md5 : Bytes → Bytes) (ex : Bytes → Bool) (root f : Bytes) :
    ∀ w ∈ (cleanup md5 ex root f).writes, ∃ tg id sets, ValidRecordIn md5 (patchStatus f) tg ∧
      parseTGData tg = .ok (id, sets) ∧ w ∈ setsWrites ex root sets := by
  intro w hw
  unfold cleanup at hw
  split at hw; · simp at hw
  split at hw; · simp at hw
  simp only at hw
  split at hw; · simp at hw
  exact C06_safety md5 ex root _ w hw

/-- the constants of the scanner are those of the source tree -/
theorem C06_constants_extracted :
    (midTGDATA.toNat : Int) = Mkts.Extracted.executor_TGDATA ∧
    (midTXNINFO.toNat : Int) = Mkts.Extracted.executor_TXNINFO ∧
    (midSTATUS.toNat : Int) = Mkts.Extracted.executor_STATUS ∧
    (destCHECKPOINT.toNat : Int) = Mkts.Extracted.executor_CHECKPOINT ∧
    (statusCOMMITCOMPLETE.toNat : Int) = Mkts.Extracted.executor_COMMITCOMPLETE ∧
    (tgLenBytes : Int) = Mkts.Extracted.executor_tgLenBytes ∧
    (tgIDBytes : Int) = Mkts.Extracted.executor_tgIDBytes ∧
    (checkSumBytes : Int) = Mkts.Extracted.executor_checkSumBytes ∧
    safetyFactor = Mkts.Extracted.executor_safetyFactor ∧
    (walStatusLenBytes : Int) = Mkts.Extracted.executor_walStatusLenBytes := by decide

/-! ## the no-panic claim is false of the code -/

/-- full statement (first half): startup replay never panics, whatever the file contains -/
def C06_full : Prop :=
  ∀ (md5 : Bytes → Bytes) (ex : Bytes → Bool) (root f : Bytes) (p : Panic),
    (cleanup md5 ex root f).outcome ≠ .panic p

/-- full statement (second half, append form): what a WAL file applies is still applied when
arbitrary bytes follow it -/
def C06_full_append : Prop :=
  ∀ (md5 : Bytes → Bytes) (ex : Bytes → Bool) (root f g : Bytes),
    (cleanup md5 ex root f).outcome = .ok →
    ∀ w ∈ (cleanup md5 ex root f).writes, w ∈ (cleanup md5 ex root (f ++ g)).writes

/-- a valid status header: STATUS, OPEN, NOTREPLAYED, owner 0x0101010101010101 -/
def hdr : Bytes := [2, 1, 1, 1, 1, 1, 1, 1, 1, 1, 1]

/-- F6: a TGDATA record announcing 3 bytes: `tgSerialized[:7]` panics (any tgLen in 0…6 does) -/
theorem C06_cex_tglen_short (md5 : Bytes → Bytes) (ex : Bytes → Bool) (root : Bytes) :
    (cleanup md5 ex root (hdr ++ [0] ++ le 8 3 ++ [9, 9, 9])).outcome = .panic .slice := by rfl

/-- F6: … already with tgLen = 0 and nothing after it (a WAL that ends in zero bytes) -/
theorem C06_cex_tglen_zero (md5 : Bytes → Bytes) (ex : Bytes → Bool) (root : Bytes) :
    (cleanup md5 ex root (hdr ++ [0] ++ le 8 0)).outcome = .panic .slice := by rfl

/-- F6: a negative tgLen passes the sanity check and reaches `make([]byte, tgLen)` -/
theorem C06_cex_tglen_negative (md5 : Bytes → Bytes) (ex : Bytes → Bool) (root : Bytes) :
    (cleanup md5 ex root (hdr ++ [0] ++ [255, 255, 255, 255, 255, 255, 255, 255])).outcome = .panic .makeslice := by rfl

/-- a STATUS message id as the last byte of the file: `wal.ReadStatus` indexes a nil slice -/
theorem C06_cex_status_eof (md5 : Bytes → Bytes) (ex : Bytes → Bool) (root : Bytes) :
    (cleanup md5 ex root (hdr ++ [2])).outcome = .panic .slice := by rfl

theorem C06_not_full : ¬ C06_full := by
  intro h
  exact h (fun _ => []) (fun _ => true) [] _ .slice (C06_cex_status_eof _ _ _)

end Mkts.Props.C06
