#!/bin/bash
# all claimed checks, quick tier, seed $1 (default 1), three lanes side by side
cd /verif
seed=${1:-1}
ids=$(python3 -c "import json;print(' '.join(c['property_id'] for c in json.load(open('MANIFEST.json'))['checks']))")
lane() { for p in "$@"; do t0=$(date +%s); out=$(VERIF_SEED=$seed ./check $p --tier quick 2>&1 | grep -v "^KNOWN-FINDING" | tail -2 | tr '\n' ' ' | cut -c1-300); echo "seed=$seed $p $(( $(date +%s) - t0 ))s $out"; done; }
a=(); b=(); c=(); i=0
for p in $ids; do case $((i%3)) in 0) a+=($p);; 1) b+=($p);; 2) c+=($p);; esac; i=$((i+1)); done
lane "${a[@]}" & lane "${b[@]}" & lane "${c[@]}" & wait
