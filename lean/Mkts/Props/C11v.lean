import Mkts.Lemmas.VStore
import Mkts.Props.C09
/-!
# C11 / C12 — variable-length buckets

`trimResultsToRange` (after the repair `fix: trimResultsToRange drops … records after the end`)
is two scans — from the front to the first record at or after `start`, from the back to the last
record not after `end`.  On a time-sorted buffer (C09) that is exactly the filter
`start ≤ t ≤ end`.  The row limit, however, is applied to the index records before expansion
(known finding C12-F19): counterexample theorem and the partial theorem.
-/
namespace Mkts.Props.C11v
open Mkts.VStore Mkts.Store Mkts.Time Mkts.Bytes

def SortedNs (l : List VRow) : Prop := l.Pairwise (fun a b => a.ns ≤ b.ns)

theorem dropBefore_eq_filter (st : Int) (l : List VRow) (h : SortedNs l) :
    dropBefore st l = l.filter (fun r => decide (st ≤ r.ns)) := by
  induction l with
  | nil => rfl
  | cons r rest ih =>
    simp only [SortedNs, List.pairwise_cons] at h
    simp only [dropBefore, List.filter_cons]
    by_cases hr : st ≤ r.ns
    · simp only [hr, if_true, decide_true]
      congr 1
      symm
      apply List.filter_eq_self.mpr
      intro x hx
      have := h.1 x hx
      simp; omega
    · simp only [hr, if_false, decide_false]
      exact ih h.2

theorem dropBefore'_eq_filter (en : Int) (l : List VRow) (h : l.Pairwise (fun a b => b.ns ≤ a.ns)) :
    cutAfter.dropBefore' en l = l.filter (fun r => decide (r.ns ≤ en)) := by
  induction l with
  | nil => rfl
  | cons r rest ih =>
    simp only [List.pairwise_cons] at h
    simp only [cutAfter.dropBefore', List.filter_cons]
    by_cases hr : r.ns ≤ en
    · simp only [hr, if_true, decide_true]
      congr 1
      symm
      apply List.filter_eq_self.mpr
      intro x hx
      have := h.1 x hx
      simp; omega
    · simp only [hr, if_false, decide_false]
      exact ih h.2

theorem cutAfter_eq_filter (en : Int) (l : List VRow) (h : SortedNs l) :
    cutAfter en l = l.filter (fun r => decide (r.ns ≤ en)) := by
  unfold cutAfter
  rw [dropBefore'_eq_filter en l.reverse (by
    rw [List.pairwise_reverse]; exact h)]
  rw [List.filter_reverse, List.reverse_reverse]

theorem sorted_filter (p : VRow → Bool) (l : List VRow) (h : SortedNs l) : SortedNs (l.filter p) :=
  List.Pairwise.sublist List.filter_sublist h

/-- C11 (variable): on a time-sorted buffer the range trim is the filter `start ≤ t ≤ end`
    (bounds at nanosecond precision, either may be absent, inverted ranges give nothing) -/
theorem C11v_trim_is_filter (q : Query) (l : List VRow) (h : SortedNs l) :
    trimRange q l = l.filter (fun r =>
      (match q.start with | none => true | some st => decide (st ≤ r.ns)) &&
      (match q.stop with | none => true | some en => decide (r.ns ≤ en))) := by
  unfold trimRange
  cases hs : q.start with
  | none =>
    cases he : q.stop with
    | none => simp; exact (List.filter_eq_self.mpr (by intro a _; rfl)).symm
    | some en => simp [cutAfter_eq_filter en l h]
  | some st =>
    cases he : q.stop with
    | none => simp [dropBefore_eq_filter st l h]
    | some en =>
      simp only [dropBefore_eq_filter st l h]
      rw [cutAfter_eq_filter en _ (sorted_filter _ l h), List.filter_filter]
      congr 1
      funext r
      simp [Bool.and_comm]

/-- The limit law for variable-length buckets as the property states it (relative to the ranged,
    unlimited result of the same store). -/
def C12v_full : Prop :=
  ∀ (F : TickFns) (tf : Int) (s : VSlots) (st en : Option Int) (n : Nat),
    VStore.query F tf s ⟨st, en, some (n, true)⟩ = (VStore.query F tf s ⟨st, en, none⟩).take n

/-- FALSE of the code (finding C12-F19): four records in four 1Min intervals, range starting
    after the first two, limit 1 from the start returns nothing although two rows are in range. -/
theorem C12_cex_var_limit : ¬ C12v_full := by
  intro h
  have := h C09.demoF 60000000000
    (VStore.applyHist C09.demoF 60000000000
      [[⟨1577872810, 0, [1]⟩, ⟨1577872870, 0, [2]⟩, ⟨1577872930, 0, [3]⟩]])
    (some 1577872830000000000) none 1
  revert this
  decide

/-- What holds: when the limit is at least the number of intervals in the scanned index range, the
    limited query is the first / last N rows of the ranged result. -/
theorem C12v_partial (F : TickFns) (tf : Int) (s : VSlots) (st en : Option Int) (n : Nat) (dir : Bool)
    (hn : ((sortedSlotsV s).filter (fun kv => inRange tf ⟨st, en, some (n, dir)⟩ kv.1.1 kv.1.2)).length ≤ n) :
    VStore.query F tf s ⟨st, en, some (n, dir)⟩ =
      (if dir then (VStore.query F tf s ⟨st, en, none⟩).take n
       else takeLast n (VStore.query F tf s ⟨st, en, none⟩)) := by
  have hin : ∀ y i, inRange tf ⟨st, en, some (n, dir)⟩ y i = inRange tf ⟨st, en, none⟩ y i := by
    intro y i; rfl
  cases dir
  · simp only [VStore.query, trimRange, Bool.false_eq_true, if_false]
    rw [show takeLast n ((sortedSlotsV s).filter (fun kv => inRange tf ⟨st, en, some (n, false)⟩ kv.1.1 kv.1.2))
        = (sortedSlotsV s).filter (fun kv => inRange tf ⟨st, en, some (n, false)⟩ kv.1.1 kv.1.2) from by
      simp [takeLast, Nat.sub_eq_zero_of_le hn]]
    rfl
  · simp only [VStore.query, trimRange, if_true]
    rw [List.take_of_length_le hn]
    rfl

end Mkts.Props.C11v
