import Mkts.Lemmas.Timeframe
/-!
# C31 — Timeframe and candle-window arithmetic is consistent

Model: `Mkts.Timeframe` (`utils/timeframe.go`): `CandleDurationFromString`, `Truncate`, `Ceil`,
`IsWithin`, `QueryableTimeframe`, `TimeframeFromString`, `TimeframeFromDuration`.

The property as stated is FALSE of the code in five input classes (each reproduced on the real
code through the harness, each with a counterexample theorem here):
  * multiplier 0 is accepted (`"0Min"`): `Ceil(t) = t`, the window is empty;
  * a multiplier whose product with the unit overflows `int64` wraps (`"9223372037Sec"`);
  * `IsWithin` ignores the multiplier for `W` (`"2W"`: the second week is outside its own window);
  * `W` windows start on UTC Mondays but `IsWithin` compares ISO weeks in the instant's zone;
  * `TimeframeFromDuration` truncates to the lower unit (`90 s ↦ "1Min"`, which parses to 60 s).
`C31_partial` / `C31_print_parse_partial` prove the property with exactly these classes excluded.
-/
namespace Mkts.Props.C31
open Mkts.Time Mkts.Timeframe

/-- the three window claims of the property for one candle duration, zone and instant -/
def WindowOK (cd : CandleDuration) (z : Zone) (t : Int) : Prop :=
  truncate cd z t ≤ t ∧ t < ceil cd z t ∧ isWithin cd z t (truncate cd z t) = true

/-- suffixes whose windows are calendar days / months (the multiplier is ignored by the code) -/
abbrev Calendar (cd : CandleDuration) : Prop := cd.suffix = .D ∨ cd.suffix = .M

/-- `mult * unit` did not overflow `int64` -/
abbrev NoOverflow (cd : CandleDuration) : Prop := cd.duration = cd.mult * suffixDur cd.suffix

/-! ## window start / end -/

/-- window start ≤ instant: fixed-length suffixes (Sec, Min, H, W, Y), any zone, any multiplier -/
theorem C31_trunc_le (cd : CandleDuration) (z : Zone) (t : Int) (h : ¬ Calendar cd) :
    truncate cd z t ≤ t := by
  obtain ⟨str, dur, suf, mult⟩ := cd
  cases suf <;> simp only [truncate] <;> first | exact goTruncate_le _ _ | (exfalso; apply h; simp [Calendar])

/-- window start ≤ instant: every suffix, UTC -/
theorem C31_trunc_le_utc (cd : CandleDuration) (t : Int) : truncate cd utc t ≤ t := by
  obtain ⟨str, dur, suf, mult⟩ := cd
  cases suf <;> simp only [truncate] <;> try exact goTruncate_le _ _
  · rw [utc_dayStart, utc_localDays]; omega
  · rw [utc_dayStart, utc_localDays]
    have := monthFloorDays_le (t / 86400000000000)
    omega

/-- instant < window end: fixed-length suffixes need a positive duration (any zone) -/
theorem C31_lt_ceil (cd : CandleDuration) (z : Zone) (t : Int) (h : ¬ Calendar cd) (hd : 0 < cd.duration) :
    t < ceil cd z t := by
  obtain ⟨str, dur, suf, mult⟩ := cd
  have key : t < goTruncate (t + dur) dur := by
    rw [goTruncate_add_self t dur hd]; exact lt_goTruncate_add t dur hd
  cases suf <;> simp only [ceil] <;> first | exact key | (exfalso; apply h; simp [Calendar])

/-- instant < window end: calendar suffixes (D, M), UTC, every multiplier -/
theorem C31_lt_ceil_calendar_utc (cd : CandleDuration) (t : Int) (h : Calendar cd) : t < ceil cd utc t := by
  obtain ⟨str, dur, suf, mult⟩ := cd
  rcases h with h | h <;> simp only at h <;> subst h <;> simp only [ceil]
  · rw [utc_dayStart, utc_localDays]; simp only [dayNs]; omega
  · rw [utc_dayStart, utc_localDays]
    have := lt_monthCeilDays (t / 86400000000000)
    omega

/-- fixed-length windows are exactly one duration long and the end is the next window's start -/
theorem C31_window_length (cd : CandleDuration) (z : Zone) (t : Int) (h : ¬ Calendar cd) (hd : 0 < cd.duration) :
    ceil cd z t = truncate cd z t + cd.duration ∧ truncate cd z (ceil cd z t) = ceil cd z t := by
  obtain ⟨str, dur, suf, mult⟩ := cd
  have k1 := goTruncate_add_self t dur hd
  have k2 : goTruncate (goTruncate (t + dur) dur) dur = goTruncate (t + dur) dur := goTruncate_idem _ _
  cases suf <;> simp only [ceil, truncate] <;> first | exact ⟨k1, k2⟩ | (exfalso; apply h; simp [Calendar])

/-! ## the property -/

/-- The property's window claim at full strength (UTC, the harness's configured zone). -/
def C31_full : Prop :=
  ∀ (s : Str) (cd : CandleDuration) (t : Int), candleDurationFromString s = some cd → WindowOK cd utc t

/-- the same for an arbitrary zone carried by the instant -/
def C31_full_zone (z : Zone) : Prop :=
  ∀ (s : Str) (cd : CandleDuration) (t : Int), candleDurationFromString s = some cd → WindowOK cd z t

/-- **C31 (windows), partial.**  For every string the parser accepts, every instant (UTC):
    start ≤ instant < end and the instant is within its own window, provided
    (`mult_zero`) fixed-length suffixes have a non-zero multiplier,
    (`mult_overflow`) `mult * unit` fits `int64`, and (`multi_week`) `W` has multiplier ≤ 1. -/
theorem C31_partial (s : Str) (cd : CandleDuration) (t : Int)
    (hparse : candleDurationFromString s = some cd)
    (mult_zero : ¬ Calendar cd → 0 < cd.mult)
    (mult_overflow : ¬ Calendar cd → NoOverflow cd)
    (multi_week : cd.suffix = .W → cd.mult ≤ 1) :
    WindowOK cd utc t := by
  have hp := parsed_of_fromString hparse
  refine ⟨C31_trunc_le_utc cd t, ?_, ?_⟩
  · by_cases hc : Calendar cd
    · exact C31_lt_ceil_calendar_utc cd t hc
    · apply C31_lt_ceil cd utc t hc
      have h1 := mult_zero hc
      have h2 := mult_overflow hc
      unfold NoOverflow at h2
      rw [h2]
      apply Int.mul_pos h1
      exact suffixDur_pos _ (fun hm => hc (Or.inr hm))
  · obtain ⟨str, dur, suf, mult⟩ := cd
    cases suf
    · exact within_self_fixed _ _ _ (Or.inl rfl)
    · exact within_self_fixed _ _ _ (Or.inr (Or.inl rfl))
    · exact within_self_fixed _ _ _ (Or.inr (Or.inr rfl))
    · exact within_self_D_utc _ _ rfl
    · exact within_self_W_utc _ _ hp rfl (multi_week rfl)
    · exact within_self_M_utc _ _ rfl
    · exact within_self_Y_utc _ _ hp rfl (mult_overflow (by simp [Calendar]))

/-- Sub-day-unit suffixes (Sec, Min, H) do not look at the zone at all: the partial theorem holds
    for every location. -/
theorem C31_partial_anyzone (s : Str) (cd : CandleDuration) (z : Zone) (t : Int)
    (_hparse : candleDurationFromString s = some cd)
    (hs : cd.suffix = .Sec ∨ cd.suffix = .Min ∨ cd.suffix = .H)
    (mult_zero : 0 < cd.mult) (mult_overflow : NoOverflow cd) :
    WindowOK cd z t := by
  have hc : ¬ Calendar cd := by
    rcases hs with h | h | h <;> simp [Calendar, h]
  refine ⟨C31_trunc_le cd z t hc, ?_, within_self_fixed cd z t hs⟩
  apply C31_lt_ceil cd z t hc
  unfold NoOverflow at mult_overflow
  rw [mult_overflow]
  exact Int.mul_pos mult_zero (suffixDur_pos _ (fun hm => hc (Or.inr hm)))

/-! ### counterexamples (each is also a corpus line replayed on the implementation) -/

/-- `"0Min"` is accepted and its window is empty: `Ceil(t) = t`. -/
theorem C31_cex_mult_zero : ¬ C31_full := by
  intro h
  have := (h ['0','M','i','n'] _ 0 rfl).2.1
  revert this; decide

/-- `"2W"`: 1970-01-13 lies in the 2-week window starting Monday 1970-01-05 but `IsWithin` says no. -/
theorem C31_cex_multi_week : ¬ C31_full := by
  intro h
  have := (h ['2','W'] _ (12 * 86400000000000) rfl).2.2
  revert this; decide

/-- `"9223372037Sec"`: the duration wraps negative, `Ceil(t) < t`. -/
theorem C31_cex_overflow : ¬ C31_full := by
  intro h
  have := (h ['9','2','2','3','3','7','2','0','3','7','S','e','c'] _ 0 rfl).2.1
  revert this; decide

/-- a location at UTC−5 all year (e.g. America/Bogota) -/
def utcMinus5 : Zone := { init := -18000, trans := [] }

/-- `"1W"` at Monday 1970-01-05 10:00 local (15:00Z): the window starts Monday 00:00 **UTC**, which is
    Sunday 19:00 local, a different ISO week — the instant is not within its own window. -/
theorem C31_cex_week_zone : ¬ C31_full_zone utcMinus5 := by
  intro h
  have := (h ['1','W'] _ ((4 * 86400 + 15 * 3600) * 1000000000) rfl).2.2
  revert this; decide

/-- America/Sao_Paulo around 2000-10-08, when local midnight did not exist (DST starts 00:00→01:00) -/
def saoPaulo2000 : Zone := { init := -10800, trans := [(951616800, -10800), (970974000, -7200), (982461600, -10800)] }

/-- `"1D"` on the day whose midnight is skipped: `Truncate` lands on 23:00 of the previous local day,
    so the instant is not within its own window. -/
theorem C31_cex_day_gap : ¬ C31_full_zone saoPaulo2000 := by
  intro h
  have := (h ['1','D'] _ (970990000 * 1000000000) rfl).2.2
  revert this; decide

/-- America/New_York around 2020-11-01 (clocks go back at 02:00 EDT = 06:00Z: a 25-hour local day) -/
def newYork2020 : Zone := { init := -14400, trans := [(1604210400, -18000)] }

/-- `"1D"` at 2020-11-01 00:00 local: `Ceil` is `Date(ts.Add(24h))`, and 24 h later it is still
    November 1st (23:00), so `Ceil(ts) = ts` — the window end is not after the instant. -/
theorem C31_cex_long_day : ¬ C31_full_zone newYork2020 := by
  intro h
  have := (h ['1','D'] _ (1604203200 * 1000000000) rfl).2.1
  revert this; decide

/-! ## QueryableTimeframe -/

/-- For a duration that is a whole number of seconds the chosen query timeframe is an entry of
    `Timeframes` whose duration divides the candle duration. -/
theorem C31_queryable_divides (cd : CandleDuration) (hs : cd.suffix ≠ .M) (hsec : second ∣ cd.duration) :
    queryableTimeframe cd ∈ timeframes ∧ (queryableTimeframe cd).2 ∣ cd.duration ∧
    timeframeFromString (queryableTimeframe cd).1 = some (queryableTimeframe cd).2 := by
  have key : queryableTimeframe cd ∈ timeframes ∧ (queryableTimeframe cd).2 ∣ cd.duration := by
    unfold queryableTimeframe
    simp only [hs, ne_eq, not_false_eq_true, if_true]
    split
    · rename_i tf hf
      have := find_some_mem _ _ _ hf
      refine ⟨List.mem_reverse.mp this.1, ?_⟩
      have h2 := this.2
      simp only [beq_iff_eq] at h2
      exact Int.dvd_of_tmod_eq_zero h2
    · rename_i hf
      exfalso
      rw [List.find?_eq_none] at hf
      apply hf (['1','S','e','c'], second) (by decide)
      simp only [beq_iff_eq]
      exact Int.tmod_eq_zero_of_dvd hsec
  exact ⟨key.1, key.2, timeframes_parse _ key.1⟩

/-- **C31 (query timeframe), partial**: for every accepted string without overflow. -/
theorem C31_queryable_partial (s : Str) (cd : CandleDuration)
    (_hparse : candleDurationFromString s = some cd) (hs : cd.suffix ≠ .M) (mult_overflow : NoOverflow cd) :
    (queryableTimeframe cd).2 ∣ cd.duration :=
  (C31_queryable_divides cd hs (second_dvd_of_noOverflow cd mult_overflow)).2.1

/-- months are queried through `1D`, and month windows are whole UTC days -/
theorem C31_queryable_month (cd : CandleDuration) (t : Int) (hs : cd.suffix = .M) :
    queryableTimeframe cd = (['1','D'], day) ∧ truncate cd utc t % day = 0 ∧ ceil cd utc t % day = 0 := by
  obtain ⟨str, dur, suf, mult⟩ := cd
  simp only at hs; subst hs
  refine ⟨by simp [queryableTimeframe], ?_, ?_⟩ <;>
    simp only [truncate, ceil, utc_dayStart, day, Mkts.Extracted.utils_Day] <;> omega

def C31_queryable_full : Prop :=
  ∀ (s : Str) (cd : CandleDuration), candleDurationFromString s = some cd →
    (queryableTimeframe cd).2 ∣ cd.duration

/-- `"9223372037Sec"` wraps to a duration that no entry divides; the fallback `1D` is returned. -/
theorem C31_cex_queryable_overflow : ¬ C31_queryable_full := by
  intro h
  have := h ['9','2','2','3','3','7','2','0','3','7','S','e','c'] _ rfl
  revert this; decide

/-- the table is in strictly ascending order of duration (after `fix: list 2H before 4H`), which
    is what the scan from the end relies on -/
theorem C31_timeframes_ascending : timeframes.Pairwise (fun a b => a.2 < b.2) := by decide

/-- every catalog timeframe is its own query timeframe (before the repair `4H` was answered from
    `2H`: finding C08-F27) -/
theorem C31_queryable_catalog :
    ∀ tf ∈ timeframes, ∀ str mult, queryableTimeframe ⟨str, tf.2, .H, mult⟩ = tf := by
  intro tf htf str mult
  have : tf ∈ timeframes := htf
  simp only [timeframes, Mkts.Extracted.utils_Timeframes, List.map, List.mem_cons, List.mem_nil_iff, or_false] at this
  rcases this with h | h | h | h | h | h | h | h | h | h | h <;> subst h <;> simp only [queryableTimeframe] <;> decide

/-! ## parse / print stability -/

/-- durations that `TimeframeFromDuration` can print exactly -/
abbrev Canonical (d : Int) : Prop := second ≤ d ∧ d ≤ year ∧ d % lowerUnit d = 0

/-- Printing then parsing is stable for every printable duration (full statement). -/
def C31_print_parse_full : Prop := ∀ d : Int, second ≤ d → roundTripOK d = true

/-- Parsing, printing and parsing again is stable for every accepted string (full statement). -/
def C31_parse_print_full : Prop :=
  ∀ (s : Str) (d : Int), timeframeFromString s = some d → roundTripOK d = true

/-- 90 s prints as `"1Min"` (with duration 90 s), which parses to 60 s. -/
theorem C31_cex_90Sec : ¬ C31_print_parse_full := by
  intro h
  have := h (90 * second) (by decide)
  revert this; decide

theorem C31_cex_parse_90Sec : ¬ C31_parse_print_full := by
  intro h
  have := h ['9','0','S','e','c'] (90 * second) (by decide)
  revert this; decide

/-- `"36H"` prints as `"1D"`; `"2Y"` does not print at all. -/
theorem C31_cex_parse_36H_2Y :
    timeframeFromString ['3','6','H'] = some (36 * hour) ∧ roundTripOK (36 * hour) = false ∧
    timeframeFromString ['2','Y'] = some (2 * year) ∧ timeframeFromDuration (2 * year) = none := by decide

/-- **C31 (parse/print), partial** (`noncanonical_duration` excluded): every duration between 1 s and
    365 d that is a whole multiple of the largest ladder unit (1 s, 1 min, 1 h, 1 d, 7 d, 365 d) not
    exceeding it prints to a string that parses back to the same duration. -/
theorem C31_print_parse_partial (d : Int) (noncanonical_duration : Canonical d) : roundTripOK d = true := by
  obtain ⟨h1, h2, h3⟩ := noncanonical_duration
  unfold lowerUnit at h3
  have c1 : second = 1000000000 := rfl
  have c2 : minute = 60 * second := rfl
  have c3 : hour = 60 * minute := rfl
  have c4 : day = 24 * hour := by decide
  have c5 : week = 7 * day := by decide
  have c6 : year = 365 * day := by decide
  split at h3
  · exact rt_of_multiple d second 60 (by decide) h3 h1 (by omega) rt_sec
  split at h3
  · exact rt_of_multiple d minute 60 (by decide) h3 (by omega) (by omega) rt_min
  split at h3
  · exact rt_of_multiple d hour 24 (by decide) h3 (by omega) (by omega) rt_hour
  split at h3
  · exact rt_of_multiple d day 7 (by decide) h3 (by omega) (by omega) rt_day
  split at h3
  · exact rt_of_multiple d week 53 (by decide) h3 (by omega) (by omega) rt_week
  · have : d = year := by omega
    rw [this]; exact rt_year

/-- the same from the parsing side -/
theorem C31_parse_print_partial (s : Str) (d : Int) (_h : timeframeFromString s = some d)
    (noncanonical_duration : Canonical d) : roundTripOK d = true :=
  C31_print_parse_partial d noncanonical_duration

/-! ## non-vacuity -/

example : ∃ cd, candleDurationFromString ['1','5','M','i','n'] = some cd ∧ ¬ Calendar cd ∧ 0 < cd.mult ∧
    NoOverflow cd ∧ (cd.suffix = .W → cd.mult ≤ 1) := ⟨_, rfl, by decide, by decide, by decide, by decide⟩
example : ∃ cd, candleDurationFromString ['1','W'] = some cd ∧ cd.suffix = .W ∧ cd.mult ≤ 1 ∧ NoOverflow cd :=
  ⟨_, rfl, by decide, by decide, by decide⟩
example : ∃ cd, candleDurationFromString ['3','M'] = some cd ∧ Calendar cd := ⟨_, rfl, by decide⟩
example : Canonical (5 * minute) ∧ Canonical (2 * day) ∧ Canonical (52 * week) ∧ ¬ Canonical (90 * second) := by decide
example : timeframeFromString ['5','M','i','n'] = some (5 * minute) := by decide

end Mkts.Props.C31
